package world

import (
	"context"
	"crypto"
	"crypto/tls"
	"encoding/base64"
	"errors"
	"fmt"
	"net"
	"os"
	"path/filepath"
	"runtime/debug"
	"strings"
	"sync"
	"sync/atomic"
	"time"

	"github.com/hashicorp/nodeenrollment"
	"github.com/hashicorp/nodeenrollment/protocol"
	nodetls "github.com/hashicorp/nodeenrollment/tls"
	"github.com/hashicorp/nodeenrollment/types"
	"google.golang.org/protobuf/proto"
)

// RawConn is a server-side raw connection that counts Close calls
type RawConn struct {
	net.Conn
	rec *ConnRec
	tl  *TrackedListener
}

func (c *RawConn) Close() error {
	c.rec.Closes.Add(1)
	err := c.Conn.Close()
	c.tl.bump()
	return err
}

// ConnRec is what happened to one raw connection on the server side
type ConnRec struct {
	Seq    int
	Remote string
	Raw    *RawConn
	Closes atomic.Int32 // Close calls on the raw connection by the server side

	// set under TrackedListener.mu
	Done      bool
	Returned  bool
	Conn      net.Conn // what Accept returned
	AcceptErr error
	Temporary bool
	Panic     any
	Stack     string
}

// NegotiatedProtocol returns the ALPN protocol of a returned connection
func (r *ConnRec) NegotiatedProtocol() string {
	if pc, ok := r.Conn.(*protocol.Conn); ok && pc != nil && pc.Conn != nil {
		return pc.Conn.ConnectionState().NegotiatedProtocol
	}
	if tc, ok := r.Conn.(*tls.Conn); ok && tc != nil {
		return tc.ConnectionState().NegotiatedProtocol
	}
	return ""
}

// Authenticated reports whether the returned connection negotiated the node
// authentication protocol
func (r *ConnRec) Authenticated() bool {
	p := r.NegotiatedProtocol()
	return r.Returned && len(p) >= len(nodeenrollment.AuthenticateNodeNextProtoV1Prefix) &&
		p[:len(nodeenrollment.AuthenticateNodeNextProtoV1Prefix)] == nodeenrollment.AuthenticateNodeNextProtoV1Prefix
}

// TrackedListener wraps a base listener and keeps a record per raw connection
type TrackedListener struct {
	net.Listener
	mu     sync.Mutex
	cond   *sync.Cond
	byAddr map[string]*ConnRec
	bySeq  []*ConnRec
	last   atomic.Pointer[ConnRec]
	unix   bool
	closed atomic.Bool
	// CloseErr, if set, is what Accept reports once the listener has been closed, in place of
	// the standard library's error: multiplexers (cmux: "mux: listener closed"), in-memory
	// listeners (bufconn: "closed") and wrappers signal closure with their own sentinel,
	// which does not wrap net.ErrClosed
	CloseErr error
	// AcceptsAfterClose counts Accept calls made on the closed listener (a caller that keeps
	// accepting after closure is looping); beyond parkAfter such calls block so that a
	// looping caller does not burn a core for the rest of the run
	AcceptsAfterClose atomic.Int64
}

const parkAfter = 5000

// NewTrackedListener wraps ln
func NewTrackedListener(ln net.Listener, unix bool) *TrackedListener {
	t := &TrackedListener{Listener: ln, byAddr: map[string]*ConnRec{}, unix: unix}
	t.cond = sync.NewCond(&t.mu)
	return t
}

func (t *TrackedListener) bump() {
	t.mu.Lock()
	t.cond.Broadcast()
	t.mu.Unlock()
}

func (t *TrackedListener) Accept() (net.Conn, error) {
	c, err := t.Listener.Accept()
	if err != nil {
		if t.closed.Load() {
			if t.AcceptsAfterClose.Add(1) > parkAfter {
				select {}
			}
			if t.CloseErr != nil {
				return nil, t.CloseErr
			}
		}
		return nil, err
	}
	t.mu.Lock()
	rec := &ConnRec{Seq: len(t.bySeq) + 1}
	if t.unix {
		rec.Remote = fmt.Sprintf("unix#%d", rec.Seq)
	} else {
		rec.Remote = c.RemoteAddr().String()
	}
	rc := &RawConn{Conn: c, rec: rec, tl: t}
	rec.Raw = rc
	t.byAddr[rec.Remote] = rec
	t.bySeq = append(t.bySeq, rec)
	t.last.Store(rec)
	t.cond.Broadcast()
	t.mu.Unlock()
	return rc, nil
}

func (t *TrackedListener) Close() error {
	t.closed.Store(true)
	err := t.Listener.Close()
	t.bump()
	return err
}

// Accepted returns the number of raw connections accepted so far
func (t *TrackedListener) Accepted() int {
	t.mu.Lock()
	defer t.mu.Unlock()
	return len(t.bySeq)
}

// LWCfg configures a listener world
type LWCfg struct {
	BaseTLS    *tls.Config
	Options    []nodeenrollment.Option // nil: server's Opts()
	OptionsSet bool                    // use Options even if nil
	Unix       bool
	FetchFn    protocol.FetchCredsFn
	GenFn      protocol.GenerateServerCertificatesFn
	Acceptors  int  // default 1
	NoAccept   bool // do not start acceptors (caller drives Accept)
	// BaseCloseErr: the base listener reports closure with this error instead of net.ErrClosed
	BaseCloseErr error
}

// PanicRec is a recovered panic out of Accept
type PanicRec struct {
	Value string
	Stack string
	Seq   int
}

// LW is an intercepting listener on a tracked base listener plus acceptors
type LW struct {
	S  *Server
	TL *TrackedListener
	IL *protocol.InterceptingListener
	// TempAfterClose: an Accept error marked temporary although the base listener was already closed
	TempAfterClose error
	Addr           string
	multi          bool

	mu     sync.Mutex
	Panics []PanicRec
	Fatal  error // first non-temporary accept error
	wg     sync.WaitGroup
	sock   string
}

var sockSeq atomic.Int64

// NewLW starts a listener world
func NewLW(s *Server, cfg LWCfg) (*LW, error) {
	var base net.Listener
	var err error
	lw := &LW{S: s}
	if cfg.Unix {
		root := os.Getenv("VERIF_ROOT")
		if root == "" {
			root = "/verif"
		}
		dir := filepath.Join(root, ".build")
		_ = os.MkdirAll(dir, 0o755)
		seq := sockSeq.Add(1)
		lw.sock = filepath.Join(dir, fmt.Sprintf("s-%d-%d.sock", os.Getpid(), seq))
		if seq%2 == 0 {
			// every other socket gets a long name without dots (socket paths may be up to about 100 bytes; they
			// are file names, not host names, and nothing limits the length of their components to 63)
			base := fmt.Sprintf("s-%d-%d-", os.Getpid(), seq)
			if pad := 100 - len(dir) - 1 - len(base) - len(".sock"); pad > 0 {
				lw.sock = filepath.Join(dir, base+strings.Repeat("x", pad)+".sock")
			}
		}
		if seq%3 == 0 {
			// every third socket lives in a directory whose name has a colon (an instance label such as worker:1):
			// an absolute path is a unix socket whatever else it contains
			cdir := filepath.Join(dir, fmt.Sprintf("w:%d", seq%7))
			if os.MkdirAll(cdir, 0o755) == nil {
				lw.sock = filepath.Join(cdir, fmt.Sprintf("s-%d-%d.sock", os.Getpid(), seq))
			}
		}
		_ = os.Remove(lw.sock)
		base, err = net.Listen("unix", lw.sock)
		lw.Addr = lw.sock
	} else {
		base, err = net.Listen("tcp", "127.0.0.1:0")
		if err == nil {
			lw.Addr = base.Addr().String()
		}
	}
	if err != nil {
		return nil, err
	}
	lw.TL = NewTrackedListener(base, cfg.Unix)
	lw.TL.CloseErr = cfg.BaseCloseErr
	opts := cfg.Options
	if opts == nil && !cfg.OptionsSet {
		opts = s.Opts()
	}
	lw.IL, err = protocol.NewInterceptingListener(&protocol.InterceptingListenerConfiguration{
		Context:                        s.Ctx,
		Storage:                        s.Store,
		BaseListener:                   lw.TL,
		BaseTlsConfiguration:           cfg.BaseTLS,
		FetchCredsFunc:                 cfg.FetchFn,
		GenerateServerCertificatesFunc: cfg.GenFn,
		Options:                        opts,
	})
	if err != nil {
		base.Close()
		return nil, err
	}
	n := cfg.Acceptors
	if n <= 0 {
		n = 1
	}
	lw.multi = n > 1
	if !cfg.NoAccept {
		for i := 0; i < n; i++ {
			lw.wg.Add(1)
			go lw.acceptLoop()
		}
	}
	return lw, nil
}

// IsTemporary reports whether err declares itself temporary
func IsTemporary(err error) bool {
	te, ok := err.(interface{ Temporary() bool })
	return ok && te.Temporary()
}

func (lw *LW) acceptLoop() {
	defer lw.wg.Done()
	for {
		var c net.Conn
		var err error
		var pv any
		var st string
		func() {
			defer func() {
				if x := recover(); x != nil {
					pv = x
					st = string(debug.Stack())
				}
			}()
			c, err = lw.IL.Accept()
		}()
		tl := lw.TL
		if pv != nil {
			rec := tl.last.Load()
			lw.mu.Lock()
			pr := PanicRec{Value: fmt.Sprint(pv), Stack: st}
			if rec != nil {
				pr.Seq = rec.Seq
			}
			lw.Panics = append(lw.Panics, pr)
			lw.mu.Unlock()
			if rec != nil && !lw.multi {
				tl.mu.Lock()
				rec.Panic, rec.Stack, rec.Done = pv, st, true
				tl.cond.Broadcast()
				tl.mu.Unlock()
				_ = rec.Raw.Conn.Close() // unblock the client; not counted as a close by the library
			}
			continue
		}
		if err != nil {
			if !IsTemporary(err) {
				lw.mu.Lock()
				if lw.Fatal == nil {
					lw.Fatal = err
				}
				lw.mu.Unlock()
				tl.bump()
				return
			}
			if tl.closed.Load() {
				// the base listener is closed and Accept still calls the failure temporary: an
				// accept loop that trusts the marking would spin forever; this one records it and stops
				lw.mu.Lock()
				lw.TempAfterClose = err
				lw.mu.Unlock()
				tl.bump()
				return
			}
			if !lw.multi {
				if rec := tl.last.Load(); rec != nil {
					tl.mu.Lock()
					if !rec.Done {
						rec.AcceptErr, rec.Temporary, rec.Done = err, true, true
					}
					tl.cond.Broadcast()
					tl.mu.Unlock()
				}
			}
			continue
		}
		key := ""
		if c != nil && c.RemoteAddr() != nil {
			key = c.RemoteAddr().String()
		}
		tl.mu.Lock()
		rec := tl.byAddr[key]
		if rec == nil || tl.unix {
			rec = tl.last.Load()
		}
		if rec != nil {
			rec.Returned, rec.Conn, rec.Done = true, c, true
		}
		tl.cond.Broadcast()
		tl.mu.Unlock()
	}
}

// ErrWatchdog is returned by the Wait functions when the generous wall-clock
// watchdog fires; callers must treat that as inconclusive
var ErrWatchdog = errors.New("watchdog: server side did not finish handling the connection")

const waitWatchdog = 30 * time.Second

func (lw *LW) waitFor(pick func() *ConnRec) (*ConnRec, error) {
	tl := lw.TL
	deadline := time.Now().Add(waitWatchdog)
	timer := time.AfterFunc(waitWatchdog, tl.bump)
	defer timer.Stop()
	tl.mu.Lock()
	defer tl.mu.Unlock()
	for {
		rec := pick()
		if rec != nil && (rec.Done || (lw.multi && rec.Closes.Load() > 0)) {
			return rec, nil
		}
		if time.Now().After(deadline) {
			return rec, ErrWatchdog
		}
		tl.cond.Wait()
	}
}

// Wait waits until the server side has finished with the raw connection whose
// remote address is the given client local address
func (lw *LW) Wait(clientLocal string) (*ConnRec, error) {
	return lw.waitFor(func() *ConnRec { return lw.TL.byAddr[clientLocal] })
}

// WaitSeq waits for the n-th (1-based) accepted raw connection
func (lw *LW) WaitSeq(n int) (*ConnRec, error) {
	return lw.waitFor(func() *ConnRec {
		if n >= 1 && n <= len(lw.TL.bySeq) {
			return lw.TL.bySeq[n-1]
		}
		return nil
	})
}

// FatalErr returns the first non-temporary accept error
func (lw *LW) FatalErr() error {
	lw.mu.Lock()
	defer lw.mu.Unlock()
	return lw.Fatal
}

// PanicList returns recovered panics
func (lw *LW) PanicList() []PanicRec {
	lw.mu.Lock()
	defer lw.mu.Unlock()
	return append([]PanicRec{}, lw.Panics...)
}

// Close closes the listener and waits for the acceptors
func (lw *LW) Close() {
	_ = lw.IL.Close()
	lw.wg.Wait()
	if lw.sock != "" {
		_ = os.Remove(lw.sock)
	}
}

// ---------------------------------------------------------------------------
// client side helpers

// AuthProtos encodes an authentication request into ALPN entries
func AuthProtos(req *types.GenerateServerCertificatesRequest) []string {
	b, err := proto.Marshal(req)
	if err != nil {
		panic(err)
	}
	out, err := nodetls.BreakIntoNextProtos(nodeenrollment.AuthenticateNodeNextProtoV1Prefix, base64.RawStdEncoding.EncodeToString(b))
	if err != nil {
		panic(err)
	}
	return out
}

// FetchProtos encodes a fetch request into ALPN entries
func FetchProtos(req *types.FetchNodeCredentialsRequest) []string {
	b, err := proto.Marshal(req)
	if err != nil {
		panic(err)
	}
	out, err := nodetls.BreakIntoNextProtos(nodeenrollment.FetchNodeCredsNextProtoV1Prefix, base64.RawStdEncoding.EncodeToString(b))
	if err != nil {
		panic(err)
	}
	return out
}

// CertPref builds the certificate preference entry for a CA key ID
func CertPref(caKeyID string) string {
	return nodeenrollment.CertificatePreferenceV1Prefix + caKeyID
}

// ClientSpec is a (possibly rogue) TLS client
type ClientSpec struct {
	Protos []string
	Chain  [][]byte      // certificate chain to present (may be empty)
	Signer crypto.Signer // key used for CertificateVerify (may differ from the certificate's)
	SNI    string
	// Sessions: a TLS client session cache (a client that keeps session tickets and offers them again)
	Sessions tls.ClientSessionCache
	// HangUpAfterHello: the peer ends its side of the stream (FIN) right after its first flight, the ClientHello
	HangUpAfterHello bool
}

// hangupConn half-closes the connection after the first write
type hangupConn struct {
	net.Conn
	once sync.Once
}

func (h *hangupConn) Write(b []byte) (int, error) {
	n, err := h.Conn.Write(b)
	h.once.Do(func() {
		if cw, ok := h.Conn.(interface{ CloseWrite() error }); ok {
			_ = cw.CloseWrite()
		} else {
			_ = h.Conn.Close()
		}
	})
	return n, err
}

// ClientResult is the client's view of one connection
type ClientResult struct {
	Local        string
	HandshakeErr error
	Conn         *tls.Conn
	State        tls.ConnectionState
	// after the handshake the client reads one byte with the server either
	// writing an ACK or closing; ReadErr is the result
	Ack     byte
	ReadErr error
}

// Connect dials addr and performs the client side of the handshake
func (cs ClientSpec) Connect(addr string) *ClientResult {
	res := &ClientResult{}
	network := "tcp"
	if len(addr) > 0 && addr[0] == '/' {
		network = "unix"
	}
	raw, err := net.Dial(network, addr)
	if err != nil {
		res.HandshakeErr = err
		return res
	}
	res.Local = raw.LocalAddr().String()
	cfg := &tls.Config{
		NextProtos:         cs.Protos,
		InsecureSkipVerify: true,
		MinVersion:         tls.VersionTLS13,
		ServerName:         cs.SNI,
		ClientSessionCache: cs.Sessions,
	}
	if len(cs.Chain) > 0 {
		cert := &tls.Certificate{Certificate: cs.Chain, PrivateKey: cs.Signer}
		cfg.GetClientCertificate = func(*tls.CertificateRequestInfo) (*tls.Certificate, error) { return cert, nil }
	}
	if cs.HangUpAfterHello {
		raw = &hangupConn{Conn: raw}
	}
	c := tls.Client(raw, cfg)
	ctx, cancel := context.WithTimeout(context.Background(), waitWatchdog)
	defer cancel()
	if err := c.HandshakeContext(ctx); err != nil {
		res.HandshakeErr = err
		_ = c.Close()
		return res
	}
	res.Conn = c
	res.State = c.ConnectionState()
	return res
}
