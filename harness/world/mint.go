package world

import (
	"crypto"
	"crypto/ed25519"
	"crypto/rand"
	"crypto/x509"
	"crypto/x509/pkix"
	"math/big"
	mathrand "math/rand"
	"time"

	"github.com/hashicorp/nodeenrollment"
	"github.com/hashicorp/nodeenrollment/types"
	"google.golang.org/protobuf/types/known/timestamppb"
)

func timestampOf(t time.Time) *timestamppb.Timestamp { return timestamppb.New(t) }

// MintRootDER creates a self-signed CA certificate the way the library does
func MintRootDER(k *Keys, nb, na time.Time) []byte {
	tpl := &x509.Certificate{
		AuthorityKeyId:        k.Pkix,
		SubjectKeyId:          k.Pkix,
		Subject:               pkix.Name{CommonName: k.KeyID},
		DNSNames:              []string{k.KeyID, nodeenrollment.CommonDnsName},
		KeyUsage:              x509.KeyUsageDigitalSignature | x509.KeyUsageKeyEncipherment | x509.KeyUsageKeyAgreement | x509.KeyUsageCertSign,
		SerialNumber:          big.NewInt(mathrand.Int63()),
		NotBefore:             nb,
		NotAfter:              na,
		BasicConstraintsValid: true,
		IsCA:                  true,
	}
	der, err := x509.CreateCertificate(rand.Reader, tpl, tpl, k.Pub, k.Priv)
	if err != nil {
		panic(err)
	}
	return der
}

// MintRoot creates a RootCertificate message with the given window
func MintRoot(id nodeenrollment.KnownId, k *Keys, nb, na time.Time) *types.RootCertificate {
	return &types.RootCertificate{
		Id:              string(id),
		PublicKeyPkix:   k.Pkix,
		PrivateKeyPkcs8: k.Pkcs8,
		PrivateKeyType:  types.KEYTYPE_ED25519,
		CertificateDer:  MintRootDER(k, nb, na),
		NotBefore:       timestamppb.New(nb),
		NotAfter:        timestamppb.New(na),
	}
}

// LeafSpec describes a certificate to mint
type LeafSpec struct {
	SubjectKeyID []byte
	CommonName   string
	DNSNames     []string
	EKU          []x509.ExtKeyUsage
	NotBefore    time.Time
	NotAfter     time.Time
	IsCA         bool
}

// MintLeaf signs a leaf for pub under the CA
func MintLeaf(ca *x509.Certificate, caKey crypto.Signer, pub ed25519.PublicKey, sp LeafSpec) []byte {
	tpl := &x509.Certificate{
		AuthorityKeyId: ca.SubjectKeyId,
		SubjectKeyId:   sp.SubjectKeyID,
		ExtKeyUsage:    sp.EKU,
		Subject:        pkix.Name{CommonName: sp.CommonName},
		DNSNames:       sp.DNSNames,
		KeyUsage:       x509.KeyUsageDigitalSignature | x509.KeyUsageKeyEncipherment | x509.KeyUsageKeyAgreement,
		SerialNumber:   big.NewInt(mathrand.Int63()),
		NotBefore:      sp.NotBefore,
		NotAfter:       sp.NotAfter,
	}
	if sp.IsCA {
		tpl.IsCA = true
		tpl.BasicConstraintsValid = true
		tpl.KeyUsage |= x509.KeyUsageCertSign
	}
	der, err := x509.CreateCertificate(rand.Reader, tpl, ca, pub, caKey)
	if err != nil {
		panic(err)
	}
	return der
}

// MintSelfSigned creates a self-signed certificate for k with the given spec
func MintSelfSigned(k *Keys, sp LeafSpec) []byte {
	tpl := &x509.Certificate{
		AuthorityKeyId:        k.Pkix,
		SubjectKeyId:          sp.SubjectKeyID,
		ExtKeyUsage:           sp.EKU,
		Subject:               pkix.Name{CommonName: sp.CommonName},
		DNSNames:              sp.DNSNames,
		KeyUsage:              x509.KeyUsageDigitalSignature | x509.KeyUsageKeyEncipherment | x509.KeyUsageKeyAgreement | x509.KeyUsageCertSign,
		SerialNumber:          big.NewInt(mathrand.Int63()),
		NotBefore:             sp.NotBefore,
		NotAfter:              sp.NotAfter,
		BasicConstraintsValid: true,
		IsCA:                  true,
	}
	der, err := x509.CreateCertificate(rand.Reader, tpl, tpl, k.Pub, k.Priv)
	if err != nil {
		panic(err)
	}
	return der
}

// ParseCert parses DER or panics (harness-minted input)
func ParseCert(der []byte) *x509.Certificate {
	c, err := x509.ParseCertificate(der)
	if err != nil {
		panic(err)
	}
	return c
}
