// Package engine holds the registry of check engines and helpers shared by them.
package engine

import (
	"encoding/json"
	"fmt"
	"hash/fnv"
	"math/rand"
	"os"
	"runtime"
	"runtime/debug"
	"strings"
	"sync"

	"verifharness/ev"
)

// Ctx is what an engine gets
type Ctx struct {
	R      *ev.Run
	Prop   string
	Tier   string
	Seed   int64
	Replay json.RawMessage // non-nil: run exactly this case
}

// Quick reports whether this is the quick tier
func (c *Ctx) Quick() bool { return c.Tier != "thorough" }

// Pick returns q in the quick tier and t in the thorough tier
func (c *Ctx) Pick(q, t int) int {
	if c.Quick() {
		return q
	}
	return t
}

// Rng returns a PRNG determined by (seed, stream)
func (c *Ctx) Rng(stream string) *rand.Rand {
	h := fnv.New64a()
	h.Write([]byte(stream))
	return rand.New(rand.NewSource(c.Seed*1000003 + int64(h.Sum64()&0x7fffffffffff)))
}

// Result is returned by an engine
type Result struct {
	Rule        string
	Exhaustive  bool
	Assumptions []string
}

// Spec describes one registered check
type Spec struct {
	Prop   string
	Engine string
	Level  string
	Race   bool
	Fn     func(*Ctx) Result
}

var registry = map[string]*Spec{}

// Register adds a check
func Register(s *Spec) { registry[s.Prop] = s }

// Lookup finds a check
func Lookup(prop string) *Spec { return registry[prop] }

// All lists registered property ids
func All() []*Spec {
	var out []*Spec
	for _, s := range registry {
		out = append(out, s)
	}
	return out
}

// Workers is the default worker count
func Workers() int {
	n := runtime.GOMAXPROCS(0)
	if n < 2 {
		n = 2
	}
	return n
}

// ForEach runs fn(i) for i in [0,n) on a worker pool
func ForEach(n, workers int, fn func(i int)) {
	if workers < 1 {
		workers = 1
	}
	var wg sync.WaitGroup
	ch := make(chan int, workers)
	for w := 0; w < workers; w++ {
		wg.Add(1)
		go func() {
			defer wg.Done()
			for i := range ch {
				fn(i)
			}
		}()
	}
	for i := 0; i < n; i++ {
		ch <- i
	}
	close(ch)
	wg.Wait()
}

// Guard runs fn and reports a panic (value and stack) instead of propagating it
func Guard(fn func()) (p any, stack string) {
	defer func() {
		if x := recover(); x != nil {
			p = x
			stack = string(debug.Stack())
		}
	}()
	fn()
	return nil, ""
}

// LibraryFrame extracts the innermost frame of the given stack that belongs
// to the library under test (or a dependency reached from it)
func LibraryFrame(stack string) string {
	lines := strings.Split(stack, "\n")
	for _, ln := range lines {
		t := strings.TrimSpace(ln)
		if strings.HasPrefix(t, "github.com/hashicorp/nodeenrollment") {
			if i := strings.LastIndex(t, "("); i > 0 {
				t = t[:i]
			}
			return t
		}
	}
	return ""
}

// LogInput writes an input descriptor to stderr before a potentially crashing
// call so that the driver can name the witness if the process dies
func LogInput(format string, a ...any) {
	fmt.Fprintf(os.Stderr, "INPUT "+format+"\n", a...)
}

// J marshals to compact JSON for descriptors
func J(v any) string {
	b, err := json.Marshal(v)
	if err != nil {
		return fmt.Sprintf("%+v", v)
	}
	return string(b)
}
