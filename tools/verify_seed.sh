#!/bin/bash
# tools/verify_seed.sh <seed-out-dir> <seed-id> <demo-target-dir-in-repo> <demo-run-regex> <tier> <check-id>...
# Confirms a seeded change independently in a scratch worktree of /repo HEAD (outside /repo and /verif):
#   patch applies; builds; vet clean; full suite passes with the patch; demo fails with it and passes without;
# then runs the given checks against the patched worktree and records everything under /verif/seeded/<id>/.
set -u
OUT=$1; ID=$2; DEMODIR=$3; RUNRE=$4; TIER=$5; shift 5
export GOFLAGS=-mod=mod GOPROXY=off GOSUMDB=off GOTOOLCHAIN=local
WT=/var/tmp/sv-$ID
rm -rf "$WT"; git -C /repo worktree prune
git -C /repo worktree add -q --detach "$WT" HEAD || exit 2
cd "$WT"
res() { echo "$1" | tee -a /var/tmp/sv-$ID.log; }
: > /var/tmp/sv-$ID.log
DEMO=$(ls "$OUT"/*_test.go 2>/dev/null | head -1)
git apply --check "$OUT/patch.diff" 2>/dev/null && res "patch_applies=yes" || { res "patch_applies=NO"; }
# demo on the original tree
cp "$DEMO" "$DEMODIR/zz_seeded_demo_test.go"
if go test -count=1 -run "$RUNRE" "./$DEMODIR/" >/var/tmp/sv-$ID.demo0 2>&1; then res "demo_without_patch=pass"; else res "demo_without_patch=FAIL"; fi
rm -f "$DEMODIR/zz_seeded_demo_test.go"
git apply "$OUT/patch.diff" || { res "apply failed"; }
(go build ./... && go vet ./... ) >/var/tmp/sv-$ID.build 2>&1 && res "build_vet_with_patch=ok" || res "build_vet_with_patch=FAIL"
if go test -count=1 ./... >/var/tmp/sv-$ID.suite 2>&1; then res "suite_with_patch=pass"; else res "suite_with_patch=FAIL"; fi
cp "$DEMO" "$DEMODIR/zz_seeded_demo_test.go"
if go test -count=1 -run "$RUNRE" "./$DEMODIR/" >/var/tmp/sv-$ID.demo1 2>&1; then res "demo_with_patch=PASS(not a demonstration)"; else res "demo_with_patch=fail(as intended)"; fi
rm -f "$DEMODIR/zz_seeded_demo_test.go"
cd /verif
for c in "$@"; do
  o=$(VERIF_REPO=$WT VERIF_OUT=$WT/_verif ./check "$c" "$TIER" 2>&1); rc=$?
  key=$(echo "$o" | grep -m1 'finding=' | sed 's/^ *finding=//' | cut -c1-160)
  res "check $c $TIER rc=$rc $(echo "$o" | grep -c '^VIOLATION') violations :: $key"
done
mkdir -p /verif/seeded/$ID
cp "$OUT/patch.diff" /verif/seeded/$ID/patch.diff
cp "$DEMO" /verif/seeded/$ID/zz_seeded_demo_test.go.txt
cp "$OUT/meta.json" /verif/seeded/$ID/meta.agent.json
cp /var/tmp/sv-$ID.log /verif/seeded/$ID/confirmation.log
git -C /repo worktree remove --force "$WT"
