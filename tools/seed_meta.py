#!/usr/bin/env python3
"""Builds /verif/seeded/<id>/meta.json from the agent's meta and the confirmation log."""
import json, sys, os, re
sid = sys.argv[1]
d = f"/verif/seeded/{sid}"
a = json.load(open(f"{d}/meta.agent.json"))
log = open(f"{d}/confirmation.log").read().splitlines()
checks = [l for l in log if l.startswith("check ")]
caught = [l.split()[1] for l in checks if " rc=1 " in l]
missed = [l.split()[1] for l in checks if " rc=0 " in l]
meta = {
 "id": sid,
 "property": a.get("property"),
 "summary": a.get("summary"),
 "needs_to_manifest": a.get("needs_to_manifest"),
 "files_touched": a.get("files_touched"),
 "source": "independent sub-agent given only the property text and a scratch worktree of /repo",
 "confirmed_by_me": {
   "how": "tools/verify_seed.sh in a fresh scratch worktree of /repo HEAD under /var/tmp: patch applies, go build + go vet clean, full go test ./... passes with the patch, demonstration test fails with the patch and passes without it",
   "log": [l for l in log if not l.startswith("check ")],
 },
 "checks_run": checks,
 "caught_by": caught,
 "not_caught_by": missed,
 "demonstration": "zz_seeded_demo_test.go.txt (copy into the package directory named in meta.agent.json 'demo')",
}
json.dump(meta, open(f"{d}/meta.json", "w"), indent=1)
print(sid, "caught_by", caught, "missed", missed)
