#!/usr/bin/env python3
"""Generates /verif/MANIFEST.json from tools/manifest_src.json (one entry per claimed property)."""
import json, os, sys
root = os.path.dirname(os.path.dirname(os.path.abspath(__file__)))
src = json.load(open(os.path.join(root, "tools", "manifest_src.json")))
props = [json.loads(l)["id"] for l in open(os.path.join(root, "properties.jsonl")) if l.strip()]
checks = []
claimed = set()
for c in src["checks"]:
    pid = c["property_id"]
    claimed.add(pid)
    checks.append({
        "property_id": pid,
        "quick_cmd": f"./check {pid} quick",
        "thorough_cmd": f"./check {pid} thorough",
        "evidence_file": f"/verif/evidence/{pid}.json",
        "replay_cmd_template": f"./check {pid} --replay {{path}}",
        "engine": c["engine"],
        "level_claimed": {"category": c.get("category", "exploration"), "text": c["level_text"], "design_ref": c["design_ref"]},
        "level_note": c["level_note"],
        "technique": c["technique"],
    })
na = [n for n in src.get("not_applicable", [])]
for p in props:
    if p not in claimed and p not in {n["property_id"] for n in na}:
        na.append({"property_id": p, "reason": "check not built yet in this revision; planned (see DESIGN.md section 5)"})
engines = {}
for c in src["checks"]:
    e = engines.setdefault(c["engine"], {"name": c["engine"], "path": f"harness/engines/{c['engine']}.go", "serves_properties": [], "kind_free_text": c.get("engine_kind", "runtime monitor over real executions")})
    e["serves_properties"].append(c["property_id"])
m = {
    "version": 1,
    "setup_cmd": src["setup_cmd"],
    "hooks": src["hooks"],
    "engines": list(engines.values()),
    "checks": checks,
    "notes": src["notes"],
    "not_applicable": na,
}
json.dump(m, open(os.path.join(root, "MANIFEST.json"), "w"), indent=1)
print("wrote MANIFEST.json with", len(checks), "checks,", len(na), "not_applicable")
