#!/usr/bin/env python3
"""Prints the prompt for a seeded-mutation sub-agent: tools/seed_prompt.py <PROP> <dir> [hint]"""
import json, sys
pid, d = sys.argv[1], sys.argv[2]
hint = sys.argv[3] if len(sys.argv) > 3 else ""
p = next(json.loads(l) for l in open('/verif/properties.jsonl') if json.loads(l)['id'] == pid)
print(f"""You are helping to evaluate a verification effort by acting as an independent source of realistic bugs.

Work ONLY inside the directory {d}: it is a scratch git worktree (detached HEAD) of the Go library hashicorp/nodeenrollment. Do NOT read, list or write anything under /verif or /repo, and do not look for other copies of this library elsewhere on the machine. Use this environment for every shell call:
    export GOFLAGS=-mod=mod GOPROXY=off GOSUMDB=off GOTOOLCHAIN=local
The machine is offline; `go build ./...` and `go test ./...` (about 40 s) work from the module cache.

The library is meant to satisfy this property:

  Title: {p['title']}
  Statement: {p['statement']}
  Quantified over: {p['quantifier']['text']}
  Code it is anchored in: {', '.join(p['anchors']['files'])}

Your task: make ONE change to the library's source (non-test .go files; it may touch two cooperating places) that BREAKS this property, such that
  1. the library still compiles and `go vet ./...` is clean,
  2. the existing test suite still passes unchanged (`go test -count=1 ./...`), and
  3. the breakage needs something SPECIFIC to manifest — a particular interleaving, a crash or fault at a particular point, a multi-step sequence of operations, an unusual input, a particular configuration, or two cooperating sites that each look fine alone. Do NOT produce a change that ordinary use (one honest enrollment and one connection) would expose at once, and do not make the happy path fail.
The change should read like a plausible refactoring slip, optimisation, or misguided "fix" a real contributor could make — no comments or names that announce it, no dead code that screams sabotage. Keep it small (ideally < 25 changed lines). {hint}

Deliver, inside {d}/_out/ (create it):
  * patch.diff   — `git diff` of the library source only (no test files, nothing from _out),
  * a demonstration: a Go test file (say where in the tree it has to be placed; name it zz_seeded_demo_test.go) or a small Go program, that FAILS with your change applied and PASSES on the original tree, and that demonstrates the property violation at the API level (not by inspecting source text),
  * meta.json    — {{"property": "{pid}", "summary": "...one paragraph: what was changed and how it breaks the property...", "needs_to_manifest": "...what specific input / sequence / interleaving / configuration is needed...", "files_touched": [...], "demo": "...exact commands to run the demonstration with and without the patch..."}}
Before you finish, verify all of it yourself: with the patch, `go build ./... && go vet ./... && go test -count=1 ./...` pass (without your demo file in the tree) and the demo fails; after `git stash`/reverting the patch, the demo passes. Leave the worktree with the patch NOT applied (clean `git status` except for _out/). Do not commit anything.
In your final message give the one-paragraph summary, what is needed to manifest, and the verification results you observed.""")
