#!/usr/bin/env python3
"""Writes /verif/seeded/INDEX.md from the meta.json files."""
import json, glob
rows = []
for f in sorted(glob.glob('/verif/seeded/*/meta.json')):
    m = json.load(open(f))
    first = "missed, check strengthened" if ("MISSED" in (m.get("history") or "") and m["id"] not in ("C14-a","C06-b","C01-c","C16-c")) else "caught"
    rows.append((m["id"], m["property"], (m.get("summary") or "").split(". ")[0][:220].replace("|", "/"),
                 (m.get("needs_to_manifest") or "")[:200].replace("\n", " ").replace("|", "/"), ", ".join(m["caught_by"]) or "-", first, (m.get("history") or "").replace("|", "/")))
out = ["# Independently seeded changes", "",
       "Produced by fresh sub-agents that were given one property's text and a scratch worktree of /repo (nothing from /verif);",
       "confirmed by `tools/verify_seed.sh` (patch applies, builds, vet clean, full suite passes with it, demonstration fails with it and passes without it).",
       "", f"Total: {len(rows)}; caught by the first version of the check: {sum(1 for r in rows if r[5]=='caught')}; missed at first and caught after the check was strengthened: {sum(1 for r in rows if r[5]!='caught')}; caught now: {sum(1 for r in rows if r[4]!='-')}.", "",
       "| id | change (first sentence of the author's summary) | needs to manifest | caught by | first run |", "|---|---|---|---|---|"]
for r in rows:
    out.append(f"| {r[0]} | {r[2]} | {r[3]} | {r[4]} | {r[5]} |")
out += ["", "## What was strengthened after a miss", ""]
for r in rows:
    if r[6]:
        out.append(f"* **{r[0]}** — {r[6]}")
open('/verif/seeded/INDEX.md', 'w').write("\n".join(out) + "\n")
print(out[5])
