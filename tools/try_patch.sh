#!/bin/bash
# tools/try_patch.sh <patch-file | -R:<commit>> <tier> <ID>...
# Applies a patch (or the reverse of a /repo commit) to /repo's working tree, runs the
# given checks, and restores the tree. Prints one line per check.
set -u
P=$1; TIER=$2; shift 2
case "$P" in -R:*) ;; /*) ;; *) P="$(pwd)/$P" ;; esac
cd /repo
if [ -n "$(git status --porcelain)" ]; then echo "/repo not clean"; exit 2; fi
case "$P" in
  -R:*) git show "${P#-R:}" | git apply -R || exit 2 ;;
  *) git apply "$P" || exit 2 ;;
esac
cd /verif
for ID in "$@"; do
  OUT=$(./check "$ID" "$TIER" 2>&1); RC=$?
  echo "$ID rc=$RC $(echo "$OUT" | grep -c '^VIOLATION') violations; $(echo "$OUT" | grep -m1 'finding=' | cut -c1-220)"
  echo "$OUT" | grep -E '^RESULT|INCONCLUSIVE|BROKEN|BUILD FAILED' | head -3
done
git -C /repo checkout -- . && git -C /repo clean -fdq
