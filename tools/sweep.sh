#!/bin/bash
# tools/sweep.sh <tier> <seed>... : runs every registered check at each seed, one line per run
cd "$(dirname "$0")/.."
TIER=$1; shift
for seed in "$@"; do
  for id in $(python3 -c "import json;print(' '.join(c['property_id'] for c in json.load(open('MANIFEST.json'))['checks']))"); do
    s=$(date +%s)
    out=$(VERIF_SEED=$seed ./check $id $TIER 2>&1); rc=$?
    e=$(date +%s)
    echo "seed=$seed $id rc=$rc wall=$((e-s))s $(echo "$out" | grep -E '^RESULT' | cut -d' ' -f5-9) $(echo "$out" | grep -cE '^KNOWN-FINDING') known $(echo "$out" | grep -E 'INCONCLUSIVE|BROKEN|VIOLATION' | head -2 | cut -c1-160 | tr '\n' '|')"
  done
done
