#!/bin/bash
# tools/try_seed.sh <patch> <tier> <ID>... : like try_patch.sh but on a scratch worktree (never touches /repo or /verif/evidence)
set -u
P=$1; TIER=$2; shift 2
export GOFLAGS=-mod=mod GOPROXY=off GOSUMDB=off GOTOOLCHAIN=local
WT=/var/tmp/ts-$$
git -C /repo worktree add -q --detach "$WT" HEAD || exit 2
git -C "$WT" apply "$P" || { git -C /repo worktree remove --force "$WT"; exit 2; }
cd /verif
for ID in "$@"; do
  OUT=$(VERIF_REPO=$WT VERIF_OUT=$WT/_verif ./check "$ID" "$TIER" 2>&1); RC=$?
  echo "$ID rc=$RC $(echo "$OUT" | grep -c '^VIOLATION') violations; $(echo "$OUT" | grep 'finding=' | cut -c1-200 | sort | uniq -c | sort -rn | head -4)"
  echo "$OUT" | grep -E '^RESULT|INCONCLUSIVE|BROKEN|BUILD FAILED' | head -3
done
git -C /repo worktree remove --force "$WT"
