#!/bin/bash
# tools/verify_batch.sh : confirms every finished seed under /tmp/seed-*/_out (tools/verify_seed.sh) four at a time,
# running the target property's check and its neighbours, then prints what did not go as expected plus the check lines.
# The directory of the demonstration is taken from its package clause.
cd "$(dirname "$0")/.."
one() {
  declare -A REL=( [C01]="C06 C19" [C02]="C05 C16 C01" [C03]="C14" [C04]="C12 C07 C03" [C05]="C02 C01 C19 C10 C15" [C06]="C01 C15 C19" [C07]="C09 C04 C08" [C08]="C09 C12 C19" [C09]="C08 C10 C19" [C10]="C13 C19 C03" [C11]="C04 C12" [C12]="C10 C05" [C13]="C10 C06" [C14]="C03 C15 C19" [C15]="C14" [C16]="C04 C17 C02" [C17]="C16 C14 C18 C05 C02" [C18]="C17" [C19]="" [C20]="C16 C14" )
  d=$1; id=$(basename "$d" | sed 's/^seed-//'); p=${id%%-*}
  [ -f "$d/_out/meta.json" ] || { echo "== $id: no meta.json yet"; return; }
  pk=$(grep -h -m1 "^package" "$d"/_out/*_test.go | awk '{print $2}'); pk=${pk%_test}
  case "$pk" in nodeenrollment) dir=. ;; file|inmem) dir=storage/$pk ;; testing) dir=storage/testing ;; toggledlogger|temperror|verifhook) dir=util/$pk ;; *) dir=$pk ;; esac
  tools/verify_seed.sh "$d/_out" "$id" "$dir" Seeded quick $p ${REL[$p]} > /var/tmp/vs-$id.out 2>&1
  echo "== $id ($dir)"; grep -v "=yes\|=pass\|=ok\|as intended" seeded/$id/confirmation.log | cut -c1-200
}
export -f one
ls -d /tmp/seed-C*/ 2>/dev/null | sed 's#/$##' | xargs -P 4 -I{} bash -c "one {}"
