#!/bin/bash
# tools/loadsweep.sh <seed> : runs all 20 quick checks at the same time (a loaded machine) and prints those that did not hold
cd "$(dirname "$0")/.."
seed=${1:-1}
for id in $(python3 -c "import json;print(' '.join(c['property_id'] for c in json.load(open('MANIFEST.json'))['checks']))"); do
  ( out=$(VERIF_SEED=$seed ./check $id quick 2>&1); rc=$?; echo "seed=$seed $id rc=$rc $(echo "$out" | grep -E '^RESULT' | cut -d' ' -f5-9) $(echo "$out" | grep -E 'INCONCLUSIVE|BROKEN|VIOLATION' | head -2 | cut -c1-160 | tr '\n' '|')" ) &
done
wait
