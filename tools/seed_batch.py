#!/usr/bin/env python3
"""tools/seed_batch.py <shift> : creates one scratch worktree of /repo HEAD per property under /tmp/seed-<P>-<letter>
and writes the prompt for an independent sub-agent next to it (/tmp/seed-<P>-<letter>.prompt). The prompt contains
the property text, a style hint (rotated by <shift>) and one-line summaries of the changes already collected for
that property, nothing else from /verif."""
import json, glob, os, subprocess, string, sys
os.chdir('/verif')
shift = int(sys.argv[1]) if len(sys.argv) > 1 else 0
by = {}
for f in sorted(glob.glob('/verif/seeded/*/meta.json')):
    m = json.load(open(f)); by.setdefault(m['property'] or m['id'][:3], []).append(m)
styles = ["Prefer a change whose effect depends on a particular configuration or option value (including edge values) that ordinary setups do not use.",
"Prefer a change whose effect needs a multi-step history, a retry, or an interleaving of two API calls to show.",
"Prefer a change that touches two cooperating places, each of which looks fine on its own.",
"Prefer a change in how one API path forwards, copies or transforms its inputs for another (a less-travelled entry point into the anchored mechanism).",
"Prefer a change that only matters for state left behind by an earlier operation (a cache, a pooled buffer, an in-memory object that is reused, a record written by an older call).",
"Prefer a change at a boundary: a limit, a size, a time instant, an empty or maximal collection, the first or last element.",
"Prefer a change in error handling: which error is returned, wrapped, compared (errors.Is / ==) or ignored, or what a clean-up on an error path does.",
"Prefer a change that is only visible through a less used part of the library: the file or store-once back end, lookup by node ID, a helper in util/ or the root package, or an exported function the flows do not normally call in that way.",
"Prefer a change in encoding, decoding or conversion: protobuf marshal / clone / merge, base64 / base58, PKIX / PKCS8 parsing, time and duration conversions, string / byte handling.",
"Prefer a change whose effect depends on two operations running at the same time in one process, or on which of two values sharing memory is modified later (aliasing)."]
plan = []
for i in range(1, 21):
    p = f"C{i:02d}"
    used = {m['id'].split('-')[1] for m in by.get(p, [])}
    letter = next(l for l in string.ascii_lowercase if l not in used)
    d = f"/tmp/seed-{p}-{letter}"
    ex = "; ".join(f"({k+1}) {(m.get('summary') or '').split('. ')[0][:170]} [{', '.join(m.get('files_touched') or [])}]" for k, m in enumerate(by.get(p, [])))
    avoid = " Mechanisms that other contributors have used several times already and that you must NOT use again: a process-wide or per-object cache / memo / remembered last value; option parsing (nil options, zero-means-default, absolute values); a recursive read lock or a lock left held; sealing or copying in place on the caller's object; symbolic links or directory-listing changes in the file back end; tolerance for duplicate-record errors; case-insensitive or widened node-ID matching; changes to which errors count as temporary; contexts that end in the middle of a storage write; TLS session tickets or resumption; size limits on requests; a read path that writes to storage; file writes that leave stale bytes; merge-instead-of-replace when loading; skipping the close of sub-listeners on one exit path; recover() moved into a helper; hand-written digit formatting of chunk numbers; a scratch or pooled buffer shared between calls; another DER encoding of a key; a clock reading taken before storage I/O; context deadlines shaping validity windows; ignoring io.EOF from a handshake; widening or narrowing which ALPN names count as the library's; escaping of IDs in file names; swapping or mis-applying the two clock skews; nil dereference in an error message."
    hint = styles[(i + shift) % len(styles)] + avoid + " Other contributors have already produced the following changes for this property; yours must differ from all of them in kind AND in the code site, so look for a different mechanism, file or path through the library: " + ex
    subprocess.run(['git', '-C', '/repo', 'worktree', 'add', '-q', '--detach', d, 'HEAD'], check=True)
    out = subprocess.run(['python3', 'tools/seed_prompt.py', p, d, hint], capture_output=True, text=True, check=True).stdout
    out = out.replace("after `git stash`/reverting the patch, the demo passes", "after reverting the patch with `git apply -R` (do NOT use `git stash`: the object store is shared with other worktrees), the demo passes")
    out = out.replace("name it zz_seeded_demo_test.go)", "name it zz_seeded_demo_test.go and let every test function in it start with TestSeededDemo)")
    open(f"{d}.prompt", 'w').write(out)
    plan.append(f"{p}-{letter}")
print(' '.join(plan))
