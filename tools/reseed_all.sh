#!/bin/bash
# tools/reseed_all.sh [tier] [id...] : regression over the seeded changes. For every /verif/seeded/<id> applies
# patch.diff to a scratch worktree of /repo HEAD (under /var/tmp, removed afterwards) and runs the checks listed
# in its meta.json "caught_by"; prints one line per (seed, check) and a summary. Never touches /repo or
# /verif/evidence. Exit 1 if a change that used to be caught is no longer caught.
set -u
cd "$(dirname "$0")/.."
export GOFLAGS=-mod=mod GOPROXY=off GOSUMDB=off GOTOOLCHAIN=local
TIER=${1:-quick}; shift || true
IDS="$*"; [ -z "$IDS" ] && IDS=$(ls seeded | grep -v INDEX)
# changes that a later fix: commit made harmless ("obsolete_since" in meta.json) are skipped
IDS=$(for i in $IDS; do grep -q '"obsolete_since"' seeded/$i/meta.json 2>/dev/null || echo $i; done)
one() {
  id=$1; WT=/var/tmp/rs-$id
  rm -rf "$WT"; git -C /repo worktree add -q --detach "$WT" HEAD 2>/dev/null || { echo "$id WORKTREE-FAILED"; return; }
  if ! git -C "$WT" apply /verif/seeded/$id/patch.diff 2>/dev/null; then echo "$id PATCH-DOES-NOT-APPLY"; git -C /repo worktree remove --force "$WT"; return; fi
  for c in $(python3 -c "import json;print(' '.join(json.load(open('/verif/seeded/$id/meta.json'))['caught_by']))"); do
    o=$(VERIF_REPO=$WT VERIF_OUT=$WT/_verif ./check "$c" "$TIER" 2>&1); rc=$?
    echo "$id $c rc=$rc $(echo "$o" | grep -m1 'finding=' | sed 's/^ *finding=//' | cut -c1-110)"
  done
  git -C /repo worktree remove --force "$WT"
}
export -f one; export TIER
printf '%s\n' $IDS | xargs -P 4 -I{} bash -c 'one {}' | tee /var/tmp/reseed.log
git -C /repo worktree prune
echo "--- $(grep -c ' rc=1 ' /var/tmp/reseed.log) caught, $(grep -vc ' rc=1 ' /var/tmp/reseed.log) not caught"
grep -v ' rc=1 ' /var/tmp/reseed.log && exit 1
exit 0
