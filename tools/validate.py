#!/usr/bin/env python3
"""Validates MANIFEST.json and every evidence file against the schemas (uses the tooling venv's jsonschema)."""
import json, sys, glob, os
try:
    import jsonschema
except ImportError:
    if os.environ.get("VERIF_VALIDATE_REEXEC"):
        sys.exit("jsonschema not available")
    import subprocess
    env = dict(os.environ, VERIF_VALIDATE_REEXEC="1")
    sys.exit(subprocess.call(["python3-vt", os.path.abspath(__file__)] + sys.argv[1:], env=env))
root = os.path.dirname(os.path.dirname(os.path.abspath(__file__)))
ok = True
def check(path, schema):
    global ok
    try:
        jsonschema.validate(json.load(open(path)), json.load(open(schema)))
        print("valid  ", path)
    except Exception as e:
        ok = False
        print("INVALID", path, str(e)[:300])
check(os.path.join(root, "MANIFEST.json"), "/root/.vp/MANIFEST.schema.json")
for f in sorted(glob.glob(os.path.join(root, "evidence", "*.json"))):
    check(f, "/root/.vp/EVIDENCE.schema.json")
sys.exit(0 if ok else 1)
